"""C08 When the connection ends everything resolves; a local drop still flushes (teardown sequence)."""
from an import (nested_bodies, logical_root, guard_at, Tracer, Explorer, guard_at, strip, walk, fmt, callee, const_eval, Inter)
from mir import loc_str
from effects import EffectEngine
from muxcommon import *

EXPLANATION = (
    "The teardown sequence is decided by product-graph exploration of the connection task's entry and wind-down "
    "functions with in-crate inlining under constant-argument contexts, per teardown cause: (R1) on every path of "
    "the wind-down function the milestones occur in the order forbid-writes (closed flag + wake on every "
    "established slot) < close of the outbound queue < WebSocket poll_close < drain of the flow table (which "
    "resolves every pending request and EOFs every stream), and the task's entry runs the wind-down on every path "
    "after the select; (R2) the queued-frame flush loop (recv -> poll_ready -> start_send) precedes poll_close "
    "exactly when the flag passed by the dropped-handle arm of the select is true, and that flag is true only "
    "for that arm; (R3) under the contexts of the failure arms (receive loop, send loop, keepalive) no "
    "unbounded wait for the peer (an awaited poll of the WebSocket source not wrapped in a timeout / "
    "now_or_never) precedes the drain of the flow table; (R4) Drop for Multiplexor signals id 0 and the consumer "
    "returns on 0; (R5) public Multiplexor methods map queue/oneshot closure to Error::Closed.")
EXPLANATION_ADDED = 'R1 also orders the source dispatch before the drain; R2 requires the flush loop to await recv() until the closed queue is empty; (R6) no await on a bounded application queue is reachable in the wind-down; (R7) the send-loop select arm never holds a dequeued message across an await (cancel safety).'
EXPLANATION_ADDED2 = ' (R8) ack-failure-stops-handoff (why the accept queue cannot hold up the wind-down); (R9) Close/Ping/Pong/Binary classification, dispatcher call-site constants, the wind-down dispatches what it takes from the source; R1 also requires the dropped-flows queue to be closed. (R10) a write refused because the stream is closed maps to Err(BrokenPipe) in every io-level write entry point (poll_write, poll_write_vectored, the bridge), never to Ok(n).'
EXPLANATION = EXPLANATION + " Added while testing against seeded changes: " + EXPLANATION_ADDED + EXPLANATION_ADDED2
EXPLANATION = EXPLANATION + " Round 10: R5 also requires the converted error to be propagated; (R11) outside the wind-down every error of the WebSocket sink / source is propagated with `?` up to the future polled by the task's select."
EXPLANATION = EXPLANATION + " Rounds 12-13: R9 also requires that a dispatch error does not end the wind-down's loop over the buffered messages (leaving on the peer's Close is fine)."
EXPLANATION = EXPLANATION + ' Rounds 14-15: (S8) the WebSocket adapters hand every message of the underlying stream to the task (no loop, no filter) and keep Close / Ping / Pong / Binary what they are.'
EXPLANATION = EXPLANATION + ' Rounds 16-17: (R12) the dequeue of accept_stream_channel / next_bind_request / get_datagram is not inside a loop (followed up through poll_fn closures).'
EXPLANATION = EXPLANATION + ' Round 18: (R13) = C16.R1, only a Pong refreshes the last-pong timestamp (so the keepalive cause of the teardown can fire).'
ASSUMPTIONS = ["poll_fn closures are polled by the await that follows their creation",
               "tokio mpsc close()/recv() semantics (clean shutdown) as documented"]
NOT_DECIDED = "completion of operations racing with teardown; enumeration of cut points; timing"
THOROUGH_CONFIGS = ["mux-nodefault", "mux-std-only"]

MS = {"flag:set", "wake", "outq:close", "outq:recv", "ws:poll_ready", "ws:start_send", "ws:poll_close", "ws:poll_next",
      "map:drain", "dropq:close", "take-sender", "bounded:timeout", "bounded:now_or_never", "bounded:timeout_at",
      "oneshot:None", "oneshot:false"}


def find_fn(crate, pred):
    return [b for b in crate.bodies if b.kind in ("Fn", "AssocFn") and pred(b)]


def bodies_with_effect(facts, crate, eng, token):
    out = []
    for b in crate.bodies:
        if b.kind not in ("Fn", "AssocFn"):
            continue
        outs = eng.outcomes(b)
        if any(token in ef or ("may:" + token) in ef for _, ef in outs):
            out.append(b)
    return out


LAST_ROLES = {}


def idx(ef, tok, exact=False):
    for i, e in enumerate(ef):
        if e == tok or (not exact and e == "may:" + tok):
            return i
    return None


_IN_R13 = False


def check(facts, rep, tier, cfg):
    crate = facts.crate("penguin_mux")
    if crate is None:
        rep.bad("C08.R1", "crate", "", "penguin_mux facts missing")
        return
    # the wind-down function: the in-crate fn whose effects contain map:drain
    eng0 = EffectEngine(facts, keep=lambda t: t in MS or t in ("send:Ping", "dropq:recv"))
    wd = None
    for b in crate.bodies:
        for bi, t in b.calls():
            c = callee(t)
            if c and c["name"] == "drain" and "HashMap" in c["def"] and "FlowSlot" in c["path"]:
                wd = logical_root(facts, b)
    rep.rule("C08.R1", "teardown complete and ordered: forbid-writes < close outbound queue < ws.poll_close < drain flow table; entry always runs it")
    if wd is None:
        rep.bad("C08.R1", "wind-down", "", "no function drains the flow table (teardown anchor missing)")
        return
    rep.analysed(wd)
    where = "%s (%s)" % (loc_str(wd.loc), wd.path)
    # flag parameter: the bool parameter of the wind-down fn
    flag_params = [i for i in range(1, wd.argc + 1) if wd.locals[i]["s"] == "bool"]
    results = {}
    for val in (0, 1):
        eng = EffectEngine(facts, ordered=True, keep=lambda t: t in MS, keep_fact=lambda f: False,
                           opaque=lambda tb: any("ws::Message" in tb.locals[i]["s"] for i in range(1, tb.argc + 1)))
        ctx = tuple((p, val) for p in flag_params)
        outs = eng.outcomes(wd, ctx)
        rep.paths += eng.states
        if eng.exhausted:
            rep.bad("C08.R1", "budget", where, "state budget exceeded (fail closed)")
        results[val] = [ef for _, ef in outs if "diverges" not in ef]
    for val, label in ((0, "failure"), (1, "local-drop")):
        effs = results[val]
        okd, detail = source_dispatch_before_eof(effs)
        if okd:
            rep.ok("C08.R1", "source-before-drain/%s" % label, where, detail)
        else:
            rep.bad("C08.R1", "source-before-drain/%s" % label, where, detail)
        if not effs:
            rep.bad("C08.R1", "paths/%s" % label, where, "no terminating path through the wind-down function for flag=%s" % bool(val))
            continue
        bad = None
        for ef in effs:
            order = [idx(ef, "outq:close"), idx(ef, "ws:poll_close"), idx(ef, "map:drain"), idx(ef, "dropq:close")]
            if any(o is None for o in order) or order != sorted(order):
                bad = ef
                break
            # the closed flag is set before the queue closes (forbid-writes loop) or while draining the table (per-slot close);
            # a flag:set between the two means the forbid-writes step was moved behind the queue close
            if any(e == "flag:set" and order[0] < i < order[2] for i, e in enumerate(ef)):
                bad = ef
                break
        if bad:
            rep.bad("C08.R1", "order/%s" % label, where,
                    "teardown milestones missing or out of order on a path (flag=%s): %s; required order: closed-flag "
                    "on every established slot, close outbound queue, ws.poll_close, drain flow table, close the dropped-flows queue "
                    "(otherwise the final drain of that queue waits for every stream handle to be dropped)" % (bool(val), list(bad)))
        else:
            rep.ok("C08.R1", "order/%s" % label, where, "%d path classes, milestones in order" % len(effs))
        # forbid-writes loop present (may be skipped only when the table is empty: flag:set appears on some path)
        if not any(idx(ef, "flag:set", True) is not None and idx(ef, "wake", True) is not None and lt(idx(ef, "flag:set", True), idx(ef, "outq:close")) for ef in effs):
            rep.bad("C08.R1", "forbid-writes/%s" % label, where, "no path sets the closed flag and wakes writers before closing the queue")
        # drain resolves pending requests
        if not any(idx(ef, "oneshot:None") is not None for ef in effs) or not any(idx(ef, "oneshot:false") is not None for ef in effs) \
                or not any(idx(ef, "take-sender") is not None for ef in effs):
            rep.bad("C08.R1", "drain-resolves/%s" % label, where, "the drained slots are not all resolved (Requested->None, BindRequested->false, Established->sender dropped)")
        else:
            rep.ok("C08.R1", "drain-resolves/%s" % label, where, "Requested->None, BindRequested->false, Established->EOF")
    # R2
    rep.rule("C08.R2", "flush of queued frames before poll_close iff the dropped-handle flag is set")
    flush1 = [ef for ef in results[1] if idx(ef, "ws:start_send") is not None]
    ok2 = bool(flush1)
    for ef in flush1:
        a, b_, c_ = idx(ef, "outq:recv"), idx(ef, "ws:start_send"), idx(ef, "ws:poll_close")
        if a is None or not (lt(idx(ef, "outq:close"), a) and lt(a, c_) and lt(b_, c_)):
            ok2 = False
    if ok2:
        rep.ok("C08.R2", "flush-on-local-drop", where, "close queue < recv/start_send loop < poll_close when the flag is true")
    else:
        rep.bad("C08.R2", "flush-on-local-drop", where, "with the dropped-handle flag set the frames queued before the drop are not all sent (recv -> start_send loop after closing the queue and before poll_close) ")
    cut_short = [ef for ef in results[1] if any(e.replace("may:", "") == "outq:recv" and i + 1 < len(ef) and ef[i + 1].startswith("bounded:")
                                                for i, e in enumerate(ef))]
    if cut_short:
        rep.bad("C08.R2", "flush-until-queue-empty", where,
                "the flush loop after a local drop takes frames from the closed outbound queue through a bounded/non-blocking poll (%s): "
                "`recv()` can be Pending while frames are still queued (cooperative budget, wake-ups), so the loop can stop early and "
                "frames queued before the drop are never transmitted" % [e for e in cut_short[0] if e.startswith("bounded:")][0])
    else:
        rep.ok("C08.R2", "flush-until-queue-empty", where, "the flush loop awaits recv() of the closed queue until it returns None")
    if any(idx(ef, "ws:start_send") is not None for ef in results[0]):
        rep.bad("C08.R2", "no-flush-on-failure", where, "frames are still written to the sink after a transport failure / peer close")
    else:
        rep.ok("C08.R2", "no-flush-on-failure", where, "no start_send in the wind-down when the flag is false")
    # R3
    rep.rule("C08.R3", "failure contexts: no unbounded wait for the peer before the flow table is drained")
    r3bad = None
    for ef in results[0]:
        i = idx(ef, "ws:poll_next")
        d = idx(ef, "map:drain")
        if i is not None and d is not None and i < d:
            nxt = ef[i + 1] if i + 1 < len(ef) else ""
            if not nxt.startswith("bounded:"):
                r3bad = ef
    if r3bad:
        rep.bad("C08.R3", "unbounded-peer-wait-before-drain", where,
                "after a failure (receive loop ended, send error, keepalive timeout) the wind-down awaits the WebSocket "
                "source with no time bound before it drains the flow table: against a silent transport the pending and "
                "later operations never fail (milestones: %s)" % list(r3bad))
    else:
        rep.ok("C08.R3", "unbounded-peer-wait-before-drain", where, "no unbounded source wait before the drain under failure contexts")

    # ---- R6 nothing in the wind-down awaits a bounded application queue that nobody may be reading
    rep.rule("C08.R6", "the wind-down never awaits the bounded Bind-request queue (Bind frames are ignored while winding down)")
    for val, label in ((0, "failure"), (1, "local-drop")):
        engb = EffectEngine(facts, keep=lambda t: t in ("bind-queue", "dispatch-blocking", "dgram-dispatch-blocking"), keep_fact=lambda f: False)
        outs = engb.outcomes(wd, tuple((p, val) for p in flag_params))
        rep.paths += engb.states
        toks = set(e.replace("may:", "") for _, ef in outs for e in ef)
        if toks & {"bind-queue", "dispatch-blocking", "dgram-dispatch-blocking"}:
            rep.bad("C08.R6", "blocking-queue-in-wind-down/%s" % label, where,
                    "while winding down (flag=%s) a frame still buffered in the WebSocket source can make the task await a bounded "
                    "application queue (%s): if the application is not draining it, the teardown never completes and pending "
                    "calls never fail" % (bool(val), sorted(toks)))
        else:
            rep.ok("C08.R6", "no-blocking-queue-in-wind-down/%s" % label, where, "no await on the Bind / per-stream / datagram queues during wind-down")
    # ---- R8 the accept queue is the one bounded queue the dispatcher may await in the wind-down; it is unreachable there only because
    #         the handshake Acknowledge is queued first and its failure (outbound queue closed) is propagated
    import rules_c07 as _c07
    _c07.check_handoff(facts, rep, crate, "C08.R8")
    # ---- R9 the peer's Close ends the receive loop; the receive loop dispatches with ignore_bind = false, the wind-down with true
    rep.rule("C08.R9", "message classification: Close -> Ok(true), Binary/Ping/Pong -> Ok(false); the receive loop returns on true and "
                       "dispatches with ignore_bind=false, the wind-down dispatches what the source still holds with ignore_bind=true")
    pm = None
    for b in crate.bodies:
        if b.kind == "Closure" and any("ws::Message" in b.locals[i]["s"] for i in range(len(b.locals))) and \
                any(callee(t) and callee(t)["name"] == "process_frame" for _, t in b.calls()):
            pm = b
    if pm is None:
        rep.bad("C08.R9", "message-dispatcher", "", "the message dispatcher (Message -> frame) was not found (anchor missing)")
    else:
        rep.analysed(pm)
        trm = Tracer(facts, pm)
        wm = "%s (%s)" % (loc_str(pm.loc), pm.path)
        table = {}
        rets = []
        for bi, blk in enumerate(pm.blocks):
            if blk["cleanup"]:
                continue
            for st in blk["stmts"]:
                if st["k"] == "Assign" and st["rv"]["k"] == "Aggregate" and st["rv"]["agg"].get("variant") == "Ok" and \
                        str(st["rv"]["agg"].get("adt", "")).endswith("result::Result"):
                    _ce = const_eval
                    cv = _ce(trm.operand(st["rv"]["ops"][0])) if st["rv"]["ops"] else None
                    if cv is not None:
                        rets.append((bi, bool(cv)))
        for gb in range(len(pm.blocks)):
            if pm.term(gb)["k"] != "SwitchInt":
                continue
            g = guard_at(facts, pm, trm, gb)
            if g is None or g.kind != "discr" or not g.adt or not g.adt.endswith("ws::Message"):
                continue
            for succ, v in g.edges:
                for rb, val in rets:
                    if isinstance(v, str) and (pm.edge_dominates((gb, succ), rb) or rb == succ):
                        table.setdefault(v, set()).add(val)
        want = {"Close": {True}, "Ping": {False}, "Pong": {False}, "Binary": {False}}
        for var, wv in want.items():
            if table.get(var) == wv:
                rep.ok("C08.R9", "message/%s" % var, wm, "-> Ok(%s)" % sorted(wv)[0])
            else:
                rep.bad("C08.R9", "message/%s" % var, wm,
                        "a %s message makes the dispatcher return %s, expected Ok(%s): %s" % (
                            var, sorted(table.get(var, [])), sorted(wv)[0],
                            "the peer's Close does not end the receive loop, so a closing peer is never noticed" if var == "Close"
                            else "an ordinary message is taken for the peer's Close and ends the connection"))
        # call sites of the dispatcher
        from an import CallIndex
        _ce2 = const_eval
        sites = []
        for cb, cbi, ct in CallIndex(facts).callers.get(logical_root(facts, pm).dp, []):
            if len(ct["args"]) >= 3:
                sites.append((cb, cbi, ct, _ce2(Tracer(facts, cb).operand(ct["args"][2]))))
        wdp = set(x.dp for x in nested_bodies(facts, wd))
        for cb, cbi, ct, val in sites:
            ws_ = "%s (%s)" % (loc_str(ct["loc"]), cb.path)
            in_wd = cb.dp in wdp
            if val is None:
                rep.bad("C08.R9", "ignore-bind/%s" % ("wind-down" if in_wd else "receive-loop"), ws_, "the ignore_bind argument is not a constant here")
            elif bool(val) == in_wd:
                rep.ok("C08.R9", "ignore-bind/%s" % ("wind-down" if in_wd else "receive-loop"), ws_, "ignore_bind = %s" % bool(val))
            else:
                rep.bad("C08.R9", "ignore-bind/%s" % ("wind-down" if in_wd else "receive-loop"), ws_,
                        "the %s dispatches with ignore_bind = %s: %s" % (
                            "wind-down" if in_wd else "receive loop", bool(val),
                            "a buffered Bind makes the teardown wait on the bind queue" if in_wd else "every Bind request of the peer is silently ignored while the connection is healthy"))
        rep.floor("C08.R9", "dispatcher call sites", len(sites), 2)
        # the wind-down really dispatches what it takes from the source
        if not any(c[0].dp in wdp for c in sites):
            rep.bad("C08.R9", "wind-down-dispatches", where, "the wind-down polls the source for remaining messages but never dispatches them: data the peer "
                                                              "sent before closing is dropped")
        else:
            rep.ok("C08.R9", "wind-down-dispatches", where, "remaining messages are handed to the dispatcher")
        for okd, wd_, dd in dispatch_not_cut_short(facts, crate):
            (rep.ok if okd else rep.bad)("C08.R9", "wind-down-dispatch-survives-errors", wd_, dd)
    # ---- entry: select arms and flag values
    entry = None
    idxc = Inter(facts).call_index()
    for cb, cbi, ct in idxc.callers.get(wd.dp, []):
        entry = (cb, cbi, ct)
    if entry is None:
        rep.bad("C08.R1", "entry", "", "wind-down function is never called")
        return
    cb, cbi, ct = entry
    rep.analysed(cb)
    tr = Tracer(facts, cb)
    ewhere = "%s (%s)" % (loc_str(ct["loc"]), cb.path)
    rets = [x for x in range(len(cb.blocks)) if cb.term(x)["k"] == "Return"]
    if any(r in cb.reachable_from(0, cut={cbi}) for r in rets):
        rep.bad("C08.R1", "entry-always-winds-down", ewhere, "the task can return without running the wind-down function")
    else:
        rep.ok("C08.R1", "entry-always-winds-down", ewhere, "every path to the task's return passes the wind-down call")
    guards = {bb: guard_at(facts, cb, tr, bb) for bb in range(len(cb.blocks)) if cb.term(bb)["k"] == "SwitchInt"}
    arms = {}

    def on_edge(bb, succ, auto, store):
        g = guards.get(bb)
        if g is not None and g.kind == "discr" and g.adt and g.adt.endswith("__PrivResult"):
            vals = [v for s2, v in g.edges if s2 == succ and v]
            if vals:
                return vals[0]
        return auto

    def on_term(bb, t, auto, store):
        if bb == cbi and flag_params:
            v = ex._const_of(t["args"][flag_params[0] - 1], store)
            arms.setdefault(auto, set()).add(v)
        return auto
    ex = Explorer(facts, cb, on_term=on_term, on_edge=on_edge)
    ex.run(0, None)
    rep.paths += len(ex.seen)
    # role of each arm: the k-th operand of the select closure
    roles = {}
    for blk in cb.blocks:
        for s in blk["stmts"]:
            if s["k"] == "Assign" and s["rv"]["k"] == "Aggregate" and s["rv"]["agg"]["a"] == "Closure":
                ops = s["rv"]["ops"]
                if len(ops) >= 3:
                    for k, o in enumerate(ops):
                        n = tr.operand(o)
                        calls = [x for x in walk(n) if x.kind == "call" and x[5] in facts.by_dp]
                        if calls:
                            fb = facts.by_dp[calls[0][5]]
                            outs = eng0.outcomes(fb)
                            toks = set(e.replace("may:", "") for _, ef in outs for e in ef)
                            role = ("dropped-handle" if "dropq:recv" in toks else "keepalive" if "send:Ping" in toks else
                                    "send-loop" if "ws:start_send" in toks else "receive-loop" if "ws:poll_next" in toks else "?")
                            if role != "?" or ("_%d" % k) not in roles:
                                roles["_%d" % k] = (role, fb.path)
    global LAST_ROLES
    LAST_ROLES = dict(roles)
    # ---- R7 cancel safety of the send loop: it is dropped by the select when another arm wins, so it must never hold a dequeued message across an await
    rep.rule("C08.R7", "the send-loop arm (cancelled by the select when the handle is dropped) never awaits while holding a message taken off "
                       "the outbound queue: dequeue and start_send happen in one synchronous poll step")
    k7 = 0
    for arm, (role, fpath) in roles.items():
        if role != "send-loop":
            continue
        fb = [x for x in crate.bodies if x.path == fpath]
        pool, todo = [], list(nested_bodies(facts, fb[0])) if fb else []
        while todo:
            nb0 = todo.pop()
            if nb0 in pool:
                continue
            pool.append(nb0)
            for _, t0 in nb0.calls():
                c0 = callee(t0)
                for kdp in ((c0.get("res"), c0["dp"]) if c0 else ()):
                    if kdp and kdp in facts.by_dp and facts.by_dp[kdp].crate is crate:
                        for nb1 in nested_bodies(facts, facts.by_dp[kdp]):
                            if nb1 not in pool:
                                todo.append(nb1)
        for nb in pool:
            deq = [bi for bi, t in nb.calls() if callee(t) and callee(t)["name"] in ("recv", "try_recv", "poll_recv", "recv_many")
                   and "UnboundedReceiver::<ws::Message>" in callee(t)["path"] and not nb.blocks[bi]["cleanup"]]
            yields = set(bi for bi in range(len(nb.blocks)) if nb.term(bi)["k"] == "Yield")
            sends = set(bi for bi, t in nb.calls() if callee(t) and callee(t)["name"] == "start_send_unpin")
            for d in deq:
                k7 += 1
                w7 = "%s (%s)" % (loc_str(nb.term(d)["loc"]), nb.path)
                c = callee(nb.term(d))
                held = nb.reachable_from(nb.term(d)["t"], cut=sends | {d}) if nb.term(d).get("t") is not None else set()
                # `recv().await`: the future returned by recv() holds no message until it completes; the await that completes it is not "holding"
                susp = [y for y in held & yields]
                if susp and c["name"] != "recv":
                    rep.bad("C08.R7", "cancel-safe-send-loop", w7,
                            "a message taken off the outbound queue here is held across an await (%s) before it reaches the sink: when the select "
                            "drops this future (Multiplexor dropped, other arm finished) the frame is lost although it was queued before the drop"
                            % loc_str(nb.term(susp[0])["loc"]))
                else:
                    rep.ok("C08.R7", "cancel-safe-send-loop/%s" % nb.path, w7, "no suspension point between the dequeue and start_send")
    rep.floor("C08.R7", "dequeue sites in the send-loop arm", k7, 1)
    if len(roles) < 4:
        rep.bad("C08.R2", "select-arms", ewhere, "could not identify the four select arms (found %s)" % roles)
    for arm, vals in sorted(arms.items(), key=lambda kv: str(kv[0])):
        role = roles.get(arm, ("?", "?"))[0]
        want = {1} if role == "dropped-handle" else {0}
        key = "arm-flag/%s" % role
        if vals == want:
            rep.ok("C08.R2", key, ewhere, "select arm %s (%s) passes flag=%s" % (arm, role, sorted(vals)))
        else:
            rep.bad("C08.R2", key, ewhere, "select arm %s (%s) passes drain flag %s, expected %s (flush only, and always, when the local handle was dropped)" % (arm, role, sorted(vals, key=str), sorted(want)))
    rep.floor("C08.R2", "select arms with a constant drain flag", len(arms), 4)

    # ---- R4
    rep.rule("C08.R4", "Drop for Multiplexor signals id 0; the consumer returns on 0 and closes the flow otherwise")
    drops = [b for b in crate.bodies if b.name == "drop" and b.j.get("impl_self", {}).get("adt") == "penguin_mux::Multiplexor"]
    okd = False
    for b in drops:
        t2 = Tracer(facts, b)
        for bi, t in b.calls():
            c = callee(t)
            if c and c["name"] == "send" and "UnboundedSender::<u32>" in c["path"]:
                if const_eval(t2.operand(t["args"][1])) == 0:
                    okd = True
                    rep.ok("C08.R4", "drop-signals-zero", "%s (%s)" % (loc_str(t["loc"]), b.path), "send(0)")
    if not okd:
        rep.bad("C08.R4", "drop-signals-zero", "", "Drop for Multiplexor does not send 0 on the dropped-flows channel")
    # consumer
    cons = [b for b in crate.bodies if any(callee(t) and callee(t)["name"] == "recv" and "UnboundedReceiver::<u32>" in callee(t)["path"] for _, t in b.calls())
            and any(callee(t) and (callee(t).get("res") or callee(t)["dp"]) in facts.by_dp and "close_flow" in callee(t)["name"] for _, t in b.calls())]
    okc = False
    for b in cons:
        t2 = Tracer(facts, b)
        for bb in range(len(b.blocks)):
            if b.term(bb)["k"] != "SwitchInt":
                continue
            g = guard_at(facts, b, t2, bb)
            if g and g.kind == "bool":
                p = strip(g.pred)
                if p.kind == "bin" and p[1] == "Eq" and const_eval(p[3]) == 0 and any(x.kind == "call" and x[6] in ("recv", "poll") for x in walk(p[2])):
                    tsucc = [s for s, v in g.edges if v is True][0]
                    fsucc = [s for s, v in g.edges if v is False][0]
                    closes = [bj for bj, t in b.calls() if callee(t) and "close_flow" in callee(t)["name"]]
                    if not any(c in b.reachable_from(tsucc, cut={bb}) for c in closes) and any(b.edge_dominates((bb, fsucc), c) for c in closes):
                        # inhibit_rst must be false
                        ct2 = b.term(closes[0])
                        if const_eval(t2.operand(ct2["args"][-1])) == 0:
                            okc = True
                            rep.ok("C08.R4", "consumer-zero-returns", "%s (%s)" % (loc_str(b.term(bb)["loc"]), b.path), "id==0 -> return; else close_flow(id, inhibit_rst=false)")
    if not okc:
        rep.bad("C08.R4", "consumer-zero-returns", "", "the dropped-flows consumer does not treat id 0 as 'multiplexor dropped' / does not close other ids with a Reset")

    # ---- R5
    rep.rule("C08.R5", "public Multiplexor methods map queue / oneshot closure to Error::Closed")
    n = 0
    for root, b, t, mapped in closed_mapping_sites(facts, crate):
        n += 1
        w5 = "%s (%s)" % (loc_str(t["loc"]), b.path)
        if mapped:
            rep.ok("C08.R5", "%s/closed-mapping#%d" % (root.path, n), w5, "failure mapped to Error::Closed")
        else:
            rep.bad("C08.R5", "%s/closed-mapping" % root.path, w5, "a closed queue / dropped oneshot in this public method is not reported as Error::Closed")
    rep.floor("C08.R5", "fallible queue operations in public methods", n, 5)
    # ---- a write on a stream that is closed for writing fails with BrokenPipe in every entry point
    rep.rule("C08.R10", "every io-level write entry point maps the refusal of the credit take (None: closed for writing) to Err(BrokenPipe), never to Ok(n)")
    check_refusal_is_broken_pipe(facts, rep, crate, "C08.R10")
    rep.rule("C08.R11", "outside the wind-down every error of the WebSocket sink / source is propagated with `?` (the loop ends and the task winds down)")
    check_transport_errors_end_loops(facts, rep, crate)
    # ---- R12 the accepting calls hand out whatever they take off their queue
    rep.rule("C08.R12", "accept_stream_channel / next_bind_request / get_datagram return the item they dequeue: the dequeue is not inside a loop that "
                        "can discard items (a stream queued before the connection ended still holds the data delivered to it; filtering it out on "
                        "a flag the teardown sets loses that data)")
    k12 = 0
    for b in crate.bodies:
        if "Multiplexor" not in b.path or "::tests::" in b.path:
            continue
        for bi, t in b.calls():
            c = callee(t)
            if not (c and c["name"] in ("recv", "poll_recv", "try_recv") and "Receiver" in c["path"] and
                    any(k in c["path"] for k in ("MuxStream", "BindRequest", "Datagram"))):
                continue
            k12 += 1
            rep.analysed(b)
            w12 = "%s (%s)" % (loc_str(t["loc"]), b.path)
            key12 = "dequeue-not-filtered/%s" % b.path.split("::{")[0]
            in_loop = bool(b.loop_headers_containing(bi))
            cur = b
            while not in_loop and cur.kind in ("Closure",) and cur.parent and cur.parent in facts.by_dp:
                par = facts.by_dp[cur.parent]
                for pbi, pblk in enumerate(par.blocks):
                    for st in pblk["stmts"]:
                        if st["k"] == "Assign" and st["rv"]["k"] == "Aggregate" and st["rv"]["agg"].get("a") in ("Closure", "Coroutine") and \
                                st["rv"]["agg"].get("def") == cur.dp and par.loop_headers_containing(pbi):
                            in_loop = True
                cur = par
            if in_loop:
                rep.bad("C08.R12", key12, w12, "the dequeue sits in a loop: an item taken off the queue can be dropped and the next one taken instead "
                                               "(e.g. streams the teardown has already marked closed, whose delivered data is then lost)")
            else:
                rep.ok("C08.R12", key12, w12, "one dequeue per call, handed to the caller")
    rep.floor("C08.R12", "dequeues of the accepting calls", k12, 3)
    # ---- R13 the keepalive can expire: only a Pong refreshes the last-pong timestamp (= C16.R1)
    rep.rule("C08.R13", "a dead outbound direction is noticed (= C16.R1): the last-pong timestamp is written on the Pong arm only, so traffic "
                        "the peer sends on its own does not keep an endpoint alive whose pings are no longer answered - otherwise the keepalive "
                        "cause of the teardown never fires and pending calls block forever")
    import rules_c16
    sub16 = type(rep)(rep.prop, rep.tier, rep.config)
    global _IN_R13
    if _IN_R13:
        sub16 = None        # C16 itself re-uses C08 rules: do not recurse
    else:
        _IN_R13 = True
        try:
            rules_c16.check(facts, sub16, tier, cfg)
        except Exception:
            sub16 = None
        finally:
            _IN_R13 = False
    if sub16 is not None:
        for i in sub16.instances:
            if i["rule"] == "C16.R1":
                rep.ok("C08.R13", i["key"], i["where"], i["detail"], nontrivial=False)
        for v in sub16.violations:
            if v["rule"] == "C16.R1":
                rep.bad("C08.R13", v["key"].split("/", 1)[1] if v["key"].startswith("C16") else v["key"], v["where"], v["msg"])
    import adapter
    adapter.check_adapter(facts, rep, "C08.S8")
    rep.rule("C08.S7", "who-may: the functions that touch the critical resources behind this property are those of the reference tree (flow table, closed flag, per-stream / datagram / outbound queues, last-pong timestamp, client id maps, shared TLS identity)")
    import whomay
    whomay.check(facts, rep, "C08.S7", "C08")
    whomay.check_new_statics(facts, rep, "C08.S7", "C08")
    whomay.check_new_trait_methods(facts, rep, "C08.S7", "C08")


def source_dispatch_before_eof(effs):
    """Frames still buffered in the WebSocket source are dispatched to the streams BEFORE the flow table is drained
    (= before end-of-stream is delivered to the readers)."""
    for ef in effs:
        d = idx(ef, "map:drain")
        nx = [i for i, e in enumerate(ef) if e in ("ws:poll_next", "may:ws:poll_next")]
        if d is None:
            continue
        if not nx:
            return False, "a teardown path drains the flow table without first dispatching what is still buffered in the source: %s" % list(ef)
        if any(i > d for i in nx):
            return False, ("the flow table is drained (end-of-stream delivered to every reader) BEFORE the frames still buffered in the "
                           "WebSocket source are dispatched: data the peer sent before closing is dropped and readers see EOF early "
                           "(milestones: %s)" % list(ef))
    return True, "on every path the source is polled for remaining frames before the flow table is drained"


def teardown_outcomes(facts, crate):
    """(wind-down body, {flag value: [ordered effect tuples]}) - shared with C05."""
    wd = None
    for b in crate.bodies:
        for bi, t in b.calls():
            c = callee(t)
            if c and c["name"] == "drain" and "HashMap" in c["def"] and "FlowSlot" in c["path"]:
                wd = logical_root(facts, b)
    if wd is None:
        return None, {}
    flag_params = [i for i in range(1, wd.argc + 1) if wd.locals[i]["s"] == "bool"]
    results = {}
    for val in (0, 1):
        eng = EffectEngine(facts, ordered=True, keep=lambda t: t in MS, keep_fact=lambda f: False,
                           opaque=lambda tb: any("ws::Message" in tb.locals[i]["s"] for i in range(1, tb.argc + 1)))
        outs = eng.outcomes(wd, tuple((p, val) for p in flag_params))
        results[val] = [ef for _, ef in outs if "diverges" not in ef]
    return wd, results


def dispatch_not_cut_short(facts, crate):
    """In the wind-down, the loop that hands the messages still buffered in the source to the dispatcher must not be left because ONE
    message failed to dispatch (a Datagram / Connect / Bind that meets a closed application queue returns Err): the frames behind it
    (data and Finish of live streams) would be dropped and the readers see end-of-stream early. Leaving on the dispatcher's
    Ok(true) (the peer's Close: nothing follows) is fine. Returns [(ok, where, detail)] per dispatcher call site of the wind-down."""
    wd, _ = None, None
    for b in crate.bodies:
        for bi, t in b.calls():
            c = callee(t)
            if c and c["name"] == "drain" and "HashMap" in c["def"] and "FlowSlot" in c["path"]:
                wd = logical_root(facts, b)
    pm = None
    for b in crate.bodies:
        if b.kind == "Closure" and any("ws::Message" in b.locals[i]["s"] for i in range(len(b.locals))) and \
                any(callee(t) and callee(t)["name"] == "process_frame" for _, t in b.calls()):
            pm = b
    if wd is None or pm is None:
        return []
    from an import CallIndex
    root = logical_root(facts, pm)
    dname = root.path.split("::")[-1]
    wdp = set(x.dp for x in nested_bodies(facts, wd))
    out = []
    for cb, cbi, ct in CallIndex(facts).callers.get(root.dp, []):
        if cb.dp not in wdp:
            continue
        tr = Tracer(facts, cb)
        where = "%s (%s)" % (loc_str(ct["loc"]), cb.path)
        bad = None
        for gb in range(len(cb.blocks)):
            if cb.term(gb)["k"] != "SwitchInt" or gb not in cb.reachable_from(cbi):
                continue
            g = guard_at(facts, cb, tr, gb)
            if g is None:
                continue
            if not any(x.kind == "call" and x[6] == dname for x in walk(g.pred)):
                continue
            for succ, v in g.edges:
                failing = False
                if g.kind == "discr" and v in ("Err", "Break"):
                    failing = True
                elif g.kind == "bool":
                    p = strip(g.pred)
                    if p.kind == "call" and p[6] in ("is_err", "is_ok") and v == (p[6] == "is_err"):
                        failing = True
                if failing and cbi not in cb.reachable_from(succ) and succ != cbi:
                    bad = gb
        if bad is not None:
            out.append((False, "%s (%s)" % (loc_str(cb.term(bad)["loc"]), cb.path),
                        "the wind-down stops dispatching the messages still buffered in the source as soon as ONE of them fails to dispatch "
                        "(e.g. a Datagram or Connect that meets an already closed application queue): the Push / Finish frames behind it are "
                        "dropped and the readers of live streams see end-of-stream before the data the peer wrote"))
        else:
            out.append((True, where, "a dispatch error does not end the loop over the buffered messages"))
    return out


def lt(a, b):
    """None-safe `a < b` over milestone positions (a missing milestone never satisfies an ordering)."""
    return a is not None and b is not None and a < b


def closed_mapping_sites(facts, crate):
    """(root method, body, terminator, mapped) for every fallible queue / oneshot operation in a public Multiplexor method;
    mapped = its failure is converted into Error::Closed."""
    out = []
    for b in crate.bodies:
        root = b
        while root.kind == "Closure" and root.parent in facts.by_dp:
            root = facts.by_dp[root.parent]
        if root.j.get("impl_self", {}).get("adt") != "penguin_mux::Multiplexor" or not root.j.get("pub"):
            continue
        t2 = None
        for bi, t in b.calls():
            c = callee(t)
            fallible = is_queue_send(t) or (c and c["name"] == "poll" and "oneshot::Receiver" in c["path"])
            if not fallible:
                continue
            t2 = t2 or Tracer(facts, b)
            mapped = False
            for bj, tt in b.calls():
                cc = callee(tt)
                if cc and cc["name"] in ("or", "ok_or", "map_err", "or_else") and tt["args"]:
                    if any(x.kind == "call" and x[4] == bi for x in walk(t2.operand(tt["args"][0]))):
                        an = t2.operand(tt["args"][1]) if len(tt["args"]) > 1 else None
                        if an is not None and any(x.kind == "agg" and x[2].endswith("Error::Closed") for x in walk(an)):
                            # ... and the converted result must be propagated (`?`) or be the method's result, not discarded
                            used = any(callee(t3) and callee(t3)["name"] == "branch" and t3["args"] and
                                       any(x.kind == "call" and x[4] == bj for x in walk(t2.operand(t3["args"][0]))) for _b3, t3 in b.calls())
                            used = used or any(x.kind == "call" and x[4] == bj for x in walk(t2.local(0)))
                            mapped = used
            out.append((root, b, t, mapped))
    return out


def check_transport_errors_end_loops(facts, rep, crate, rid="C08.R11"):
    """Outside the wind-down, an error of the WebSocket sink / source (poll_ready, start_send, poll_flush, poll_next) is propagated with `?`
    up to the future that the task's select polls (so the send / receive loop ends and the task tears the connection down); it is never
    discarded on the way."""
    from an import Tracer, callee, strip
    from mir import loc_str
    WS = ("poll_ready_unpin", "start_send_unpin", "poll_flush_unpin", "poll_next_unpin", "poll_ready", "start_send", "poll_flush", "poll_next")
    PASS = {"poll", "into_future", "poll_fn", "new_unchecked", "new", "as_mut", "get_mut", "deref_mut", "deref", "pin", "from", "into", "map_err",
            "or", "ok_or", "branch", "from_output", "from_residual"}

    def carried(node, pred, seen=None):
        """`node` is the value `pred` identifies, seen only through projections, wrappers and the await machinery (not as an argument of
        some other computation whose own result is then inspected)."""
        seen = seen if seen is not None else set()
        if id(node) in seen:
            return False
        seen.add(id(node))
        if pred(node):
            return True
        k = node.kind
        if k == "phi":
            return any(carried(x, pred, seen) for x in node[1])
        if k in ("ref", "deref", "cast", "downcast", "field", "cindex"):
            return carried(node[1], pred, seen)
        if k == "call" and node[6] in PASS:
            return any(carried(a, pred, seen) for a in node[3])
        if k == "agg":
            return any(carried(v, pred, seen) for _f, v in node[3])
        return False

    def propagated(b, tr, pred):
        """(feeds a `?`, is the body's own result)"""
        q = any(callee(t3) and callee(t3)["name"] == "branch" and t3["args"] and carried(tr.operand(t3["args"][0]), pred) for _b3, t3 in b.calls())
        return q, carried(tr.local(0), pred)

    k = 0
    tracers = {}
    work = []       # (body, predicate describing the error-carrying value in that body, description, origin site)
    for b in crate.bodies:
        if "task::" not in b.path or "wind_down" in b.path:
            continue
        for bi, t in b.calls():
            c = callee(t)
            if c and c["name"] in WS and "WebSocket" in (c.get("trait") or "") + c["path"] + c["def"]:
                work.append((b, (lambda x, bi=bi, nm=c["name"]: x.kind == "call" and x[4] == bi and x[6] == nm), c["name"], (b, t)))
    # the same discipline for the task's own fallible steps (frame dispatcher, message classification, ...): a `Result<_, Error>` of an
    # in-crate function called from the task loops is propagated, not dropped
    for b in crate.bodies:
        if "task::" not in b.path or "wind_down" in b.path or b.path.split("::{")[0].endswith("::start"):
            continue        # `start` hands the arms' results to the wind-down and returns them: decided by C08.R1 / R2
        for bi, t in b.calls():
            c = callee(t)
            tb = facts.by_dp.get((c.get("res") or c["dp"])) if c else None
            if tb is None or tb.crate is not crate or "task::" not in tb.path or tb.kind not in ("Fn", "AssocFn") or tb.path.endswith("::start") \
                    or not ((tb.j.get("impl_self") or {}).get("adt") or "").endswith("task::Task"):
                continue        # (the task's own result belongs to whoever spawned it)
            rt = tb.locals[0]["s"]
            inner = tb
            if tb.j.get("coroutine") is None and "impl" in rt or "{async" in rt or "Future" in rt:
                kids = [x for x in crate.children.get(tb.dp, []) if x.j.get("coroutine")]
                if kids:
                    rt = kids[0].locals[0]["s"]
            if "Result<" not in rt or not rt.rstrip(">").endswith("Error"):
                continue
            work.append((b, (lambda x, bi=bi: x.kind == "call" and x[4] == bi), "step:" + tb.name, (b, t)))
    done = set()
    while work:
        b, pred, what, (ob, ot) = work.pop()
        tr = tracers.setdefault(b.dp, Tracer(facts, b))
        q, ret = propagated(b, tr, pred)
        where = "%s (%s)" % (loc_str(ot["loc"]), ob.path)
        key = "transport-error-propagates/%s/%s" % (ob.path.split("::{")[0], what)
        if not q and not ret:
            k += 1
            rep.bad(rid, key, "%s (%s)" % (loc_str(b.loc), b.path),
                    "an error of %s (raised at %s) is discarded in %s: the loop keeps running although the connection cannot go on, the task never "
                    "reaches the wind-down and pending / later operations never fail with an error" % (
                        ("the task step `%s`" % what[5:]) if what.startswith("step:") else ("the WebSocket %s" % ("source" if "next" in what else "sink")),
                        loc_str(ot["loc"]), b.path.split("::{")[0]))
            continue
        # the error leaves this body as its result (directly or through `?`): follow it to whoever consumes that result
        root_is_select = any(callee(t4) and "select" in callee(t4)["path"] for _b4, t4 in b.calls()) or b.path.split("::{")[0].endswith("::start")
        users = []
        par = facts.by_dp.get(b.parent) if b.kind in ("Closure", "Coroutine") or "{closure" in b.path.split("::")[-1] else None
        if par is not None:
            users.append((par, (lambda x, d=b.dp: (x.kind == "agg" and x[1] in ("closure", "coroutine") and x[2] == d) or (x.kind == "closureconst" and x[1] == d))))
        for b2 in crate.bodies:
            for bj, t2 in b2.calls():
                c2 = callee(t2)
                if c2 and (c2.get("res") or c2["dp"]) == b.dp and b2 is not b:
                    users.append((b2, (lambda x, bj=bj: x.kind == "call" and x[4] == bj)))
        if (b.dp, what) in done:
            continue
        done.add((b.dp, what))
        if root_is_select or not users:
            k += 1
            rep.ok(rid, key, where, "Err propagated with `?` up to %s" % b.path.split("::{")[0])
            continue
        for ub, up in users:
            if "wind_down" in ub.path or ub.path.split("::{")[0].endswith("::start"):
                k += 1
                rep.ok(rid, key, where, "Err propagated with `?` up to the task's select")
                continue
            work.append((ub, up, what, (ob, ot)))
    rep.floor(rid, "transport operations outside the wind-down", k, 4)
