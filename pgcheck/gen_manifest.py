#!/usr/bin/env python3
"""Regenerate /verif/MANIFEST.json from the rule modules present."""
import importlib, json, os, sys

HERE = os.path.dirname(os.path.abspath(__file__))
sys.path.insert(0, HERE)
VERIF = os.path.dirname(HERE)

PROPS = ["C%02d" % i for i in range(1, 21)]
NA_REASONS = {}


def main():
    checks = []
    na = []
    for p in PROPS:
        try:
            mod = importlib.import_module("rules_%s" % p.lower())
        except ModuleNotFoundError:
            na.append({"property_id": p, "reason": NA_REASONS.get(p, "static check not built yet (under construction)")})
            continue
        checks.append({
            "property_id": p,
            "quick_cmd": "./check %s --tier quick" % p,
            "thorough_cmd": "./check %s --tier thorough" % p,
            "evidence_file": "/verif/evidence/%s.json" % p,
            "replay_cmd_template": "./check %s --tier thorough  # re-evaluates the rules; the replay file {path} names rule, instance and witness path" % p,
            "engine": "pgfacts+pgcheck",
            "level_claimed": {
                "category": "other",
                "text": getattr(mod, "LEVEL_TEXT", mod.EXPLANATION),
                "design_ref": "DESIGN.md section 4, %s" % p,
            },
            "level_note": "Decides the structural clause(s) named in level_claimed for every path of the anchored "
                          "functions; NOT decided: " + getattr(mod, "NOT_DECIDED", "") + ". Trusted base: " +
                          "; ".join(getattr(mod, "ASSUMPTIONS", [])),
            "technique": getattr(mod, "TECHNIQUE", "static analysis: custom rustc_private MIR fact extractor + "
                                                   "repository-specific dataflow/dominance/path rules"),
        })
    man = {
        "version": 1,
        "setup_cmd": "./setup.sh",
        "hooks": {
            "guard": "penguin_rs_verif",
            "enable": "none needed: static analysis reads the unmodified source (no hooks in /repo)",
            "baseline_off_cmd": "cd /repo && cargo nextest run --workspace --no-fail-fast --test-threads 8 --offline || cargo test --workspace --no-fail-fast --offline",
            "source_commits": [],
            "add_only": True,
        },
        "engines": [
            {"name": "pgfacts", "path": "/verif/pgfacts", "serves_properties": [c["property_id"] for c in checks],
             "kind_free_text": "rustc_private driver (nightly) overriding the mir_built query; dumps MIR bodies, "
                               "ADT tables and constants of the workspace crates as JSON facts"},
            {"name": "pgcheck", "path": "/verif/pgcheck", "serves_properties": [c["property_id"] for c in checks],
             "kind_free_text": "Python rule engine: provenance slicing, guard polarity, edge dominance, "
                               "product-graph path exploration, layout extraction; per-property rule tables"},
        ],
        "checks": checks,
        "not_applicable": na,
        "notes": "Technique family: static analysis only. Every check re-hashes /repo's working tree, re-extracts "
                 "MIR facts with the pgfacts driver when anything changed, and evaluates repository-specific rules. "
                 "Known findings: /verif/KNOWN_FINDINGS.txt.",
    }
    with open(os.path.join(VERIF, "MANIFEST.json"), "w") as fh:
        json.dump(man, fh, indent=1)
    print("MANIFEST.json: %d checks, %d not_applicable" % (len(checks), len(na)))


if __name__ == "__main__":
    main()
