#!/usr/bin/env python3
"""Developer tool: pretty-print bodies matching a regex from the current facts."""
import sys, os
sys.path.insert(0, os.path.dirname(os.path.abspath(__file__)))
import extract
from mir import Facts
d = extract.ensure_facts(os.environ.get("CFG", "default"))
f = Facts(d)
import re
pat = re.compile(sys.argv[1])
quiet = "-v" not in sys.argv
for c in f.crates.values():
    for b in c.bodies:
        if pat.search(b.path):
            b.pretty(quiet=quiet)
